PROP = dict(
    title="Expired or ended sessions leave nothing behind",
    design_ref="DESIGN.md section 8, C15",
    technique="Coq: component model of clearExpiredClients / processDisconnect / the handler tail / attachClient / "
              "UnsubscribeClient (Session/Lifecycle.v, mirroring the code after the two fix: commits); specification "
              "monitor mon15 written from the property text (Session/LifeSpec.v: discard only after min(client interval, "
              "server maximum) / server maximum for MQTT 3 / at once for expiry 0, never while connected, nothing left in "
              "the index, deliveries justified by the current session, DISCONNECT cannot raise a zero expiry); proved "
              "invariant over all operation histories (Session/LifeInv.v); pre-fix behaviour kept as kernel-checked "
              "refutation witnesses.  Tie to the code: differential execution of expiry / reconnect histories with "
              "virtual-time ticks at -1/0/+1 of every deadline on the real broker.",
    level_text="For every configuration and every history of operations (all on the model's reachable states): "
               "C15_when - a session leaves Clients only by the housekeeping tick when it is disconnected and more than its "
               "interval has elapsed, or at the end of its own connection when it ends with the connection (expiry 0 / "
               "MQTT 3 clean); never by a takeover, a late teardown or anything else; C15_never_while_connected - an open "
               "connection is always the registered one; C15_interval_capped - the kept interval never exceeds the server "
               "maximum (CONNECT and DISCONNECT); C15_disconnect_cannot_raise - raising a zero interval is a protocol "
               "error, the interval stays 0 and the session is gone; C15_nothing_left + "
               "C15_index_belongs_to_sessions - every topic-index entry belongs to a registered session holding that "
               "subscription, and every PUBLISH forwarded or re-sent to a connection is justified by a subscription made "
               "by the CURRENT session of its identifier (the monitor forgets an identifier's subscriptions at every "
               "discard and clean start), so nothing of a discarded session reaches a later connection with the same "
               "identifier (the clauses the pre-fix code violated: C15_prefix_expiry_refuted, "
               "C15_prefix_disconnect_cap_refuted are the kernel-checked pre-fix witnesses).  Not proved through the "
               "monitor for all histories: its timing clauses (V15_when / V15_late / V15_late0 / V15_raise / "
               "V15_connected) - their content is proved on the model's own states (C15_when, "
               "C15_never_while_connected, C15_disconnect_cannot_raise) and they are decided on every run by mon15 "
               "on the real broker's observations and by exact broker/model correspondence.",
    level_note="Trusted: Coq kernel, extraction, OCaml driver, Go broker harness, the verif-tag snapshot of Clients / topic "
               "index / delayed wills.  Modelled not verified: literal topic filters, wall-clock stamps taken from the "
               "second in which the step ran (histories straddling a second boundary are re-run), the persistent store.",
    engines=[dict(hx="life", args=["C15"], model="life15")],
    theorems=["C15_nothing_left", "C15_index_belongs_to_sessions", "C15_when", "C15_never_while_connected",
              "C15_interval_capped", "C15_disconnect_cannot_raise", "C15_prefix_expiry_refuted",
              "C15_prefix_disconnect_cap_refuted"],
    model_files="coq/Session/Lifecycle.v",
    rule="scenario product: server maximum {2^32-1, 10} x 8 session kinds (MQTT 5 expiry 5/0/absent/50, MQTT 4 persistent / "
         "clean, MQTT 3, MQTT 5 clean) x 5 endings (DISCONNECT, network drop, DISCONNECT with expiry 0/3/40) x reconnect "
         "clean 0/1 x tick at deadline -1/0/+1 (and +1 more), with a subscription, QoS 1 publishes before/after the "
         "disconnect, after expiry and after the reconnect; 250 (thorough 6000) random histories of 22 (32) operations with "
         "ticks drawn from the deadlines of the sessions currently in the broker.  non-trivial = more than two steps",
    modelled="server.go clearExpiredClients, processDisconnect, attachClient tail, inheritClientSession, UnsubscribeClient; "
             "clients.go Stop (disconnect stamp), ClearInflights",
    assumptions=["subscription filters are literal topics", "server maximum session expiry > 0",
                 "no persistent-store hook (restoring sessions is C20-C22)"],
)
