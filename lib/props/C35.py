PROP = dict(
    title="The connected-client limit is never exceeded",
    design_ref="DESIGN.md section 8, C35 (and sections 4, 5.4: interleaving models, forced schedules)",
    technique="Coq interleaving model (Base/Sched.v: threads = lists of atomic steps, run : schedule -> configuration) of "
              "attachClient's limit check / slot reservation / release over the shared counter Info.ClientsConnected; "
              "invariant proof over ALL schedules of ANY number of concurrent attempts (takeovers included); the model's "
              "atomic steps are tied to the Go code by forced schedules: the real handler goroutines are parked at "
              "verifPoints delimiting exactly these steps and released in the order of each schedule, and the counter, the "
              "number of simultaneously established connections and the CONNACK codes are compared with Sched.run on the "
              "same schedule",
    level_text="Theorems for every maximum >= 0, every list of attempts (versions, client ids) and every schedule: "
               "established connections <= maximum at every instant (C35_bound); the counter equals the number of handlers "
               "between reservation and release and stays in [0,max] (C35_counter); an attempt is refused only by its own "
               "step, only when the counter has reached the maximum, with 0x89 (v5) / 0x03 (v3.x) (C35_refusal_code); below "
               "the limit the reservation succeeds (C35_admits).  The pre-fix check-then-increment is refuted by a "
               "kernel-checked schedule (C35_refuted_prefix) that the harness reproduces on the pre-fix code.  The verdict on "
               "the code is the Coq monitor (bound at every observed instant, refusal codes) on what the real broker did.",
    level_note="Trusted: Coq kernel, extraction, OCaml driver, Go harness incl. the schedule controller harness/fsched "
               "(goroutine identity from runtime.Stack, in-memory net.Conn).  Modelled not verified: sync/atomic (Load, "
               "CompareAndSwap, Add are atomic steps; the CAS loop of reserveClientSlot is one atomic step taking effect at "
               "its successful CAS or at the Load that sees the limit); everything between two verifPoints that touches "
               "no shared counter state is folded into the adjacent step (CONNECT parsing, validation, auth hooks).",
    engines=[dict(hx="limit")],
    theorems=["C35_bound", "C35_counter", "C35_refusal_code", "C35_admits", "C35_refuted_prefix"],
    model_files="coq/Base/Sched.v coq/Conc/Limit.v",
    rule="forced schedules on the real broker (EstablishConnection over in-memory connections, handlers parked at "
         "attach.start / attach.beforeIncr / attach.readReturned): EVERY interleaving of the 3 atomic steps of 3 attach "
         "threads (1680 schedules) for max=1 and max=2 with distinct ids (versions 5/4/3) and for max=2 with a takeover "
         "(two attempts share a client id) [thorough: 9 configurations, max 1..3]; the C35-1 witness schedule; 300 "
         "(thorough 5000) random schedules of 2..4 (2..6) threads, max 1..4, random shared ids, entries for finished "
         "threads included.  After every schedule entry: Info.ClientsConnected and the number of connections holding a "
         "success CONNACK and not closed.  non-trivial = the limit is reached or an attempt refused; distinct = distinct case lines",
    exhaustive=False,
    modelled="server.go attachClient: limit check, reserveClientSlot, deferred decrement, refuseClientLimit; "
             "inheritClientSession only as 'an established connection with the same id is closed'",
    assumptions=["MaximumClients >= 0",
                 "the three atomic steps per attempt are the ones delimited by the verifPoints (check / reserve / release); "
                 "code between them does not touch Info.ClientsConnected"],
)
