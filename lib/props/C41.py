PROP = dict(
    title="Pooled buffers are never shared or returned dirty",
    design_ref="DESIGN.md section 8, C41",
    technique="Coq proof of an invariant (pool and holders hold pairwise distinct pointers; pooled buffers are empty and "
              "within the cap) over a labelled transition system of mempool/bufpool.go and its users, for every "
              "schedule of atomic actions and every behaviour of sync.Pool (oracle); the model is tied to the Go code "
              "by replaying, on every run, sequential and concurrent get/write/put histories of the real pools "
              "(capped, uncapped, package-level) through the extracted model with the oracle reconstructed from the "
              "observed pointer identities",
    level_text="Theorems for all schedules (lists of actions of any number of threads, Put split in its two atomic "
               "halves, any sync.Pool choice / miss / GC loss): Get returns an empty buffer; no buffer is held twice or "
               "is in the pool while held and Get never returns a held buffer; a capped pool keeps and hands out only "
               "buffers with capacity <= cap and drops an over-sized buffer on Put.  Assumption of the property kept "
               "explicit: a thread writes/puts only a buffer it obtained and has not put since.  Partial: sync.Pool is "
               "modelled (a multiset handing out each item at most once), not verified; bytes.Buffer growth is an oracle.",
    level_note="Trusted: Coq kernel, extraction, OCaml driver, Go harness (pointer identities, global sequence counter "
               "drawn after Get returns and before Put is called). Modelled not verified: sync.Pool, bytes.Buffer "
               "(Reset empties and keeps capacity; Write appends).",
    engines=[dict(hx="pool")],
    theorems=["C41_empty_on_get", "C41_exclusive", "C41_cap", "C41_get_enabled",
              "C41_release_before_reset_refuted", "C41_put_shape"],
    model_files="coq/Conc/Pool.v",
    rule="package-level pool: 8 goroutines x 120 steps; every constructor argument {0,-1,1,2,63,64,65,100,512,1024,4096} "
         "with 6 short single-goroutine histories; 150 (thorough 3000) sequential random get/write/put histories with "
         "up to 4 buffers in hand and forced GCs; 200 (thorough 4000) concurrent histories of 2..8 (thorough up to 32) "
         "goroutines; structural: the bodies of Buffer.Put and BufferWithCap.Put read with go/ast from the source file the harness binary was built from, as statement sequences in execution order (deferred calls last), accepted only in the shape reset-then-release / guard-then-delegate that the model stands for (a use of the buffer after sync.Pool.Put, e.g. a deferred Reset, is a violation: C41_release_before_reset_refuted gives the schedule); parallel canary stress: 4 (thorough 12) runs of 0.4 s (2 s) with 16..32 goroutines each holding 2..4 buffers filled with their own id byte, checking length 0 at Get and that owned buffers keep their length and contain no foreign byte (about 4 million Gets per run); write sizes biased to 0, small, cap-2..cap+2, above the cap.  non-trivial = the history contains "
         "a reuse of a pooled buffer or an over-sized drop; distinct = distinct case lines",
    exhaustive=False,
    modelled="mempool/bufpool.go (entire file: Buffer.Get/Put, BufferWithCap.Get/Put, NewBuffer, GetBuffer/PutBuffer)",
    assumptions=["callers follow get -> use -> put: no use of a buffer after Put, no double Put (stated in the property)",
                 "sync.Pool returns an item at most once per Put and only items that were Put or made by New",
                 "bytes.Buffer.Reset sets the length to 0 and keeps the capacity; capacity never shrinks"],
)
