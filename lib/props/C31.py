PROP = dict(
    title="The topic index stays consistent under any concurrent history",
    design_ref="DESIGN.md section 8, C31",
    technique="Coq proofs: (1) sequential refinement of the particle-tree model of topics.go to a plain set of "
              "subscriptions / map of retained messages, including every return value, for all operation histories; "
              "(2) trim changes content_at at no path; (3) a generic theorem that a schedule of atomic steps is a serial "
              "execution in program order, instantiated to the index; (4) a verified checker lin_check (sound and complete "
              "for 'some interleaving respecting per-goroutine order explains return values and final queries') that is "
              "extracted and applied to what 4-8 real goroutines observed on the real TopicsIndex",
    level_text="Theorems C31_seq_refines (all histories: return values = 'existed before' of the set/map, queries = C01/C02), "
               "C31_trim_preserves (removing empty particles never drops a live subscription or retained message), "
               "C31_lin (all programs, all schedules of root-locked operations: the history is a serial order consistent "
               "with program order explaining every return value and the final index), C31_lin_check_decides / "
               "_accepts_atomic (the run-time checker is exactly the linearizability condition).  The model is the same "
               "transliteration of topics.go as in C01/C02 (after fix 4b7c369) and is compared with the real index on "
               "random sequential histories and on concurrent batches.",
    level_note="Partial in one named respect: that every exported mutator holds x.root.Lock() from first to last statement "
               "(atomicity of the steps) is re-read from the Go AST of /repo on every run (engine topics_rootlock: first "
               "statement x.root.Lock(), second defer x.root.Unlock(), no other Unlock, and no write to particle fields outside "
               "those mutators and set/trim; judged by TopicsEngine.rootlock_check) and exercised by the concurrent batches, "
               "not derived from the Go memory model; the lock-free readers Subscribers/Messages are only queried after the "
               "goroutines have joined (concurrent readers see per-map RWMutex snapshots and are outside this statement; "
               "data races are C33).  Trusted: Coq kernel, extraction, OCaml driver, Go harness, Go scheduler for the "
               "interleavings actually produced.",
    engines=[dict(hx="topics_seq", model="topics"), dict(hx="topics_lin", model="topics"),
             dict(hx="topics_rootlock", model="topics")],
    theorems=["C31_seq_refines", "C31_reports_existed", "C31_trim_preserves", "C31_wf_preserved", "C31_lin",
              "C31_atomic_serial", "C31_lin_check_decides", "C31_lin_check_accepts_atomic"],
    model_files="coq/Topics/Trie.v (model), coq/Topics/IndexSpec.v (set/map specification), coq/Topics/Lin.v (schedules, lin_check)",
    rule="topics_seq: random histories of 1-24 operations (subscribe / unsubscribe of client, shared and inline "
         "subscriptions, retain, clear, Retained.Delete) over 2 clients, 2 inline ids and 10 filters / 6 topics chosen "
         "to collide, every return value recorded, then Subscribers on 7 topics and Messages on 11 filters; "
         "topics_lin: batches of <= 8 operations (9 with a warm-up operation) on 4-8 goroutines released together on one "
         "real index over a 4-filter / 3-topic key space so that operations conflict; return values per goroutine and the "
         "queries after join are checked by lin_check against the set/map specification (verdict) and against the model "
         "(correspondence); topics_rootlock: one structural case per run (see level_note).  non-trivial = some query non-empty (seq) / more than one goroutine (lin)",
    exhaustive=False,
    modelled="topics.go: all exported TopicsIndex methods and set / seek / trim; sync.RWMutex (as atomicity of each exported "
             "mutator)",
    assumptions=["every exported mutator of TopicsIndex is one atomic step (root lock held throughout)",
                 "queries are made when no mutator is running",
                 "shared filters have a filter part after $share/<group>/; retained topics are topic names (C30)"],
)
