PROP = dict(
    title="Packet codec round-trips every well-formed packet",
    design_ref="DESIGN.md section 8, C26",
    technique="Coq proof that the model of mochi's encoders (all 15 types, Properties.Encode with its suppression "
              "rules) writes, byte for byte, one of the encodings the reference codec (SpecCodec.v) permits for the "
              "abstracted packet, and that the model of the decoders reads every such encoding back as the packet's "
              "explicit normal form (combinator lemmas: decodeX at the offset where the reference encoding of a value "
              "starts returns the value and the next offset). Models tied to the Go encoder/decoder by byte-exact "
              "differential execution.",
    level_text="C26_roundtrip: all 15 types x versions 3/4/5, all 27 properties, any following bytes: decode(encode pk) = "
               "norm pk and the remaining-length field = number of following bytes. C26_properties: the decoded "
               "Properties struct is the explicit normal form norm_props (the documented suppression rules). "
               "C26_encodes_permitted_form: encoder output = a standard-permitted form. C26_decoded_wellformed: every packet the "
               "decoder returns is well-formed; C26_reencode_modulo_findings: any accepted byte string re-encodes (any Mods) to "
               "bytes that decode to the normal form, modulo KF_C26_pid0, for CONNECTs with the standard protocol name/level "
               "and inputs up to 268000000 bytes. C26_reencode_refuted + known finding KF_C26_pid0.",
    level_note="Trusted: Coq kernel, extraction, OCaml driver, Go harness. Hypotheses of the round trip: wf_packet "
               "(fields within their Go types, header flags as the type requires, CONNECT with the standard protocol "
               "name/level and no will fields without a will, strings valid UTF-8 <= 65535 bytes, size <= 268435455), "
               "and the stream consists of bytes (< 256). Re-encode provisos: CONNECT packets that ConnectValidate would "
               "refuse for protocol name/level or will bits without will flag are not covered; inputs within 0.4 MB of the "
               "maximum size are excluded because Properties.Decode lets a property overrun the declared block length. Modelled, not verified: bytes.Buffer/mempool "
               "as list concatenation, Go uint16/uint32/byte truncation written into the model.",
    engines=[dict(hx="codec_rt")],
    theorems=["C26_roundtrip", "C26_encoder_refuses_only_pid0", "C26_encodes_permitted_form", "C26_properties",
              "C26_fields_preserved", "C26_decoded_wellformed", "C26_reencode_modulo_findings", "C26_reencode_refuted", "C26_utf8_is_spec"],
    model_files="coq/Codec/Wire.v coq/Codec/Props.v coq/Codec/MochiCodec.v coq/Codec/CodecNorm.v",
    rule="(kind 2) every Packet value of packets.TPacketData (with and without AllowResponseInfo), boundary values "
         "(empty / 65535-byte / 65536-byte / multi-byte / invalid strings in topic, client id, will, user name, "
         "password, content type, user properties, correlation data; identifiers 65535; subscription identifier "
         "268435455) x versions, 20k generated packets (thorough 500k) of all types x versions with random property "
         "sets (valid for the type or not), all Mods combinations, repeated user properties / subscription "
         "identifiers: input value, encoder output bytes (compared byte-exactly with the model) and decoded fields "
         "(compared with norm). (kind 3) byte strings accepted by the real decoder — catalogue vectors under 3 "
         "versions, reference encodings in every shortened form, mutated encoder outputs — decoded, re-encoded, "
         "decoded again. non-trivial = well-formed packet whose encoding was decoded; distinct = distinct case lines. Special code points (U+FFFD, U+FEFF, U+0001, U+007F/0080, U+07FF/0800, U+FFFE/FFFF, U+D7FF/E000, U+10000, U+10FFFF) and ill-formed forms (surrogates, overlong, truncated, > U+10FFFF, NUL) are placed in every string-typed field and drawn by the random generators.",
    exhaustive=False,
    modelled="packets/packets.go all *Encode and *Decode methods, properties.go Encode/Decode, fixedheader.go, "
             "codec.go, the type switches of clients.go ReadPacket/WritePacket",
    assumptions=["equivalence of packets = equality of normal forms (norm / norm_props): an omitted optional property is "
                 "its default; Topic Alias 0, Maximum QoS >= 2, subscription identifier 0, the reserved CONNECT flag "
                 "and a Response Topic with wildcards are not preserved (they are invalid by the standard)",
                 "PINGREQ/PINGRESP are encoded with the caller's FixedHeader.Remaining (0 in a well-formed packet)"],
)
