import conc_gen as G

CHECK = """From Coq Require Import List String.
From MV Require Import Conc.Locks Conc.Discipline Conc.DisciplineProofs.
@TABLE@
Import ListNotations.

(* the declaration names every unit once *)
Lemma decl_ok : decl_wfb decl = true.
Proof. vm_compute. reflexivity. Qed.

(* the proved checker, evaluated by the kernel on the access table regenerated from the Go source:
   every access site lies in a declared unit and keeps its protection, except in the units that
   carry a listed finding *)
Lemma access_ok : sites_respect_modulo decl tbl = true.
Proof. vm_compute. reflexivity. Qed.

Theorem C33_holds_for_this_tree_modulo_findings :
  forall s1 s2, In s1 tbl -> In s2 tbl ->
    overlap s1 s2 = true -> conflicting s1 s2 = true -> may_be_concurrent s1 s2 = true ->
    exists u, In u decl /\\ In u (units_of decl s1) /\\ In u (units_of decl s2) /\\
              (u_kf u <> None \\/ exempt u s1 = true \\/ exempt u s2 = true \\/ synchronised u s1 s2).
Proof. exact (discipline_sound_modulo decl tbl (decl_wfb_sound decl decl_ok) access_ok). Qed.

Print Assumptions C33_holds_for_this_tree_modulo_findings.
"""

DIAG = """From Coq Require Import List String.
From MV Require Import Conc.Locks Conc.Discipline.
@TABLE@
Eval vm_compute in (violations decl tbl).
Eval vm_compute in (stale_findings decl tbl).
"""

import re


def _violations(dout):
    """[(unit path, function, kf or None)] from the printed Coq value."""
    out = []
    first = dout.split("\n     : list (path")[0] if "list (path" in dout else dout
    for m in re.finditer(r'\(((?:"[^"]*"\s*::\s*)*)nil,\s*"([^"]*)",\s*(None|Some "([^"]*)")\)', first.replace("\n", " ")):
        path = re.findall(r'"([^"]*)"', m.group(1))
        out.append((".".join(path), m.group(2), m.group(4)))
    return out


def translate(tier):
    ok, side, cout, dout, notes = G.translate(
        "C33", "access", "AccessTable", "AccessCheck", CHECK, DIAG,
        ["Conc/Locks.vo", "Conc/Discipline.vo", "Conc/DisciplineProofs.vo", "Base/Val.vo"], always_diag=True)
    if side is None:
        return False, notes
    sites = side["sites"]
    unsupported = [n for n in side["notes"] if "UNSUPPORTED" in n or "ADDR" in n]
    viol = _violations(dout)
    unlisted = sorted({(u, f) for u, f, k in viol if k is None})
    listed = sorted({(k, u, f) for u, f, k in viol if k is not None})
    for u, f in unlisted[:20]:
        where = sorted({s["pos"] for s in sites if s["fn"] == f and ".".join(s["path"]).startswith(u.split(".")[0])
                        and (".".join(s["path"]).startswith(u) or u.startswith(".".join(s["path"])))})
        notes.append("UNPROTECTED ACCESS: %s touches %s without the declared protection (or the field is not declared), at %s"
                     % (f, u, ", ".join(where[:6])))
    if unsupported:
        notes.append("constructs the translator cannot describe: " + " | ".join(unsupported)[:1200])
    if ok:
        notes.append("kernel: sites_respect_modulo decl AccessTable.tbl = true (vm_compute); "
                     "C33_holds_for_this_tree_modulo_findings closed under the global context")
    elif not unlisted:
        notes.append("check file did not compile: " + cout[-1200:])
    for k, u, f in listed:
        notes.append("listed finding %s still present statically: %s accesses %s outside the declared protection" % (k, f, u))
    m = re.search(r"list string", dout)
    stale = re.findall(r'"(KF_C33_\w+)"', dout.split("list (path")[-1]) if m else []
    if stale:
        notes.append("listed findings with no violating site any more (the finding no longer reproduces statically): " + ", ".join(stale))
    units = sorted({".".join(s["path"]) for s in sites})
    notes.append("AccessTable: %d access sites on %d field paths; functions per goroutine root: %s; locks held at "
                 "entry by every caller: %s" % (len(sites), len(units), side["functions_per_root"], side["entry_held"]))
    notes.append("not covered (outside the declared types): Options / Capabilities fields, listeners.*, auth.Ledger, "
                 "hook implementations' own state, mempool, package-level variables (DefaultServerCapabilities is only "
                 "written by its initialiser), memory reached through interfaces (net.Conn, slog.Logger)")
    return ok and not unsupported, notes


PROP = dict(
    title="Concurrent broker operation is free of data races",
    design_ref="DESIGN.md section 8, C33",
    technique="hand-written lock-discipline declaration in Coq for every field of the shared broker types; a Go-AST "
              "translator regenerates the table of all syntactic access sites (read/write, atomic, locks held, goroutine "
              "roots) on every run; Coq theorem: sites that keep the declared protection are pairwise synchronised; the "
              "proved boolean checker is evaluated on the table by the kernel (vm_compute); concurrent broker scenarios "
              "built with the Go race detector validate the table and reproduce the listed finding",
    level_text="Theorem over all declarations and tables: per-site discipline implies that any two conflicting accesses to "
               "overlapping memory that may run concurrently are synchronised by the protection of a unit both touch "
               "(common lock with the writer in write mode, both atomic, or same owning goroutine), outside declared "
               "exempt functions; per run `sites_respect_modulo decl AccessTable.tbl = true` and the instantiated theorem "
               "for the current tree (Gen/AccessCheck.v); the full-strength statement is refuted by a listed finding "
               "(C33_refuted).",
    level_note="Partial by nature: the Go memory model is not formalised (the guarantee is the lockset/atomic discipline, "
               "not happens-before); only the declared types are covered (the rest is listed in the evidence); 'may be "
               "concurrent' over-approximates from goroutine roots; Confined units and exempt functions rest on ownership "
               "/ ordering arguments written next to the declaration and exercised by the -race scenarios.  Trusted: Coq "
               "kernel, the translator astx, the declaration's comments, the Go race detector for the dynamic part.",
    engines=[dict(hx="race", race=True, timeout=1500)],
    translate=translate,
    extra_obligations=3,
    theorems=["C33_discipline_sound", "C33_modulo_findings", "C33_refuted", "C33_mutual_exclusion", "C33_declaration_wf"],
    model_files="coq/Conc/Discipline.v coq/Gen/AccessTable.v",
    rule="static: every selector expression on a field of Clients, Client (Properties/State/Net and their value-typed "
         "sub-structs), Inflight, TopicsIndex, particle, particles, Subscriptions, SharedSubscriptions, "
         "InlineSubscriptions, Inbound/OutboundTopicAliases, packets.Packets, system.Info, Hooks, Server, loop in the "
         "non-test files of the seven analysed packages; dynamic (-race): scenario broker-mix (8 (12) client goroutines x "
         "40 (400) sessions over 5 client ids: connects v4/v5 with/without wills, takeovers, wildcard/shared subscriptions, "
         "QoS 0/1/2 with acknowledgement exchanges, retained publishes, DISCONNECT with session-expiry update, abrupt "
         "close, housekeeping tasks in a loop, inline Publish/Subscribe/Unsubscribe, Close) and scenario will-window "
         "(overlapping sessions of two ids with delayed wills while delayed wills fire), 2 (6) runs; one case per distinct "
         "race report.  non-trivial = a race report / a scenario that performed operations",
    exhaustive=False,
    modelled="lock / atomic / ownership discipline of the shared fields; not modelled: Go memory model, channel "
             "synchronisation (used only in the justification of exempt functions)",
    assumptions=["the access table produced by astx lists every access to the declared fields (accesses through "
                 "reflection, unsafe or encoding/json are not seen; storage hooks outside the analysed packages read "
                 "Client fields from the handler goroutine)",
                 "functions declared exempt are ordered as their comment says (initialisation before Clients.Add / "
                 "before Serve; clearExpiredClients reads the session expiry only after observing the atomic "
                 "State.disconnected)",
                 "Confined units: a client object's handler-confined fields are touched only by the handler goroutine "
                 "of its own connection (hooks run on that goroutine; the application does not inject packets for a "
                 "connected client from another goroutine)",
                 "particles reached while holding TopicsIndex.root's lock belong to that index"],
    trusted=["harness/cmd/astx (Go-AST translator) and the hand-written declaration coq/Conc/Discipline.v",
             "Go race detector (runtime/race) for the dynamic validation"],
)
