PROP = dict(
    title="All bundled storage backends behave identically",
    design_ref="DESIGN.md section 8, C20 / C21 / C22",
    technique="Coq proof by simulation: the four hooks issue the same logical writes per event (model of the hook "
              "methods); the flat key space with prefix iteration (badger, pebble, bbolt) and the hash-per-type layout "
              "(redis) are related by an invariant preserved by every write, from which the five Stored* answers are "
              "equal for every event sequence.  The model is tied to the code by running the same generated event "
              "sequences through the four real hooks in-process (badger/pebble/bbolt on temp dirs, redis through "
              "miniredis) and comparing each read-back with the extracted model and the back ends with each other.",
    level_text="Theorems over all event sequences (lists of arbitrary length, arbitrary byte strings as ids/filters/"
               "topics): C22_same_modulo_findings (all four back ends, whenever no key exceeds bbolt's 32768-byte key "
               "limit), C22_pebble_redis_same (unconditional), C22_refuted (witness for the key-limit finding).  "
               "Read-backs are compared up to order and up to the record ID of subscriptions/messages, which is the back "
               "end's own storage key (redis stores it without the type prefix) and is read by nothing in the broker.",
    level_note="Trusted: Coq kernel, extraction, OCaml driver, Go harness, miniredis as a stand-in for redis.  Modelled "
               "not verified: the storage engines (an association list with prefix iteration / named hashes; key-size "
               "limits of bbolt and badger written into the model and exercised at the boundaries), encoding/json "
               "(identity on the record types: checked on every generated record by the correspondence, valid UTF-8 "
               "strings only).",
    engines=[dict(hx="storage", timeout=1500)],
    theorems=["C22_refuted", "C22_same_modulo_findings", "C22_pebble_redis_same"],
    model_files="coq/Storage/Kv.v coq/Storage/StoreHooks.v coq/Storage/StoreEngine.v",
    rule="(i) exhaustive: every sequence of length <= 2 (thorough 3) over an 18-event alphabet with colliding keys "
         "(ids 'a' / 'a:b', filters 'b:c' / 'c'), take-over and expiring disconnects, refused filters, acknowledgement "
         "records in flight; (ii) random histories of 3..27 events over ids/filters/topics containing ':', '_', '/', the "
         "type tags, unicode and the empty string, biased to existing and colliding keys, every persisted field of clients, subscriptions and messages varied, topic alias on half of the packets (quick 150, thorough 1500); all read-back fields incl. T and TopicAlias compared; "
         "(iv) directed on all four back ends: a take-over seen by the hooks in the three orders of (new OnSessionEstablished, old OnWillSent, old OnDisconnect) x expire true/false x stop cause take-over / wrapped take-over / shutdown / EOF / none, and OnSubscribed with reason codes 0x00..0x02, 0x7f, 0x80, 0x81, 0x83, 0x87, 0x8f, 0x91, 0x97, 0x9e, 0xa1, 0xa2, 0xff alone, mixed with granted filters and over an existing stored subscription (the model, not the majority of back ends, says what must be stored); (iii) keys at the engines' limits (32768/32769, 65000/65001, 65535) and ids made of key syntax.  quick: bolt + "
         "redis on every case, all four on every 16th; thorough: pebble + bolt + redis on every case, badger on every 4th.  "
         "every case is read back twice: from the still-open store and after the back end has been closed and opened again on the same location (badger the second time only for the directed histories that delete something); directed histories that write one record key two or three times before deleting it (in-flight PUBLISH -> resend -> PUBREL then complete / dropped, a filter subscribed twice then unsubscribed, a retained message set twice then cleared / expired, a client record written twice then expired / disconnected with expiry).  non-trivial = at least two events; distinct = distinct case lines",
    exhaustive=False,
    modelled="hooks/storage/{badger,pebble,bolt,redis}/*.go: every On* storage method, key helpers, setKv/delKv/iterKv/"
             "getKv and HSet/HDel/HGetAll/HGet, Stored*; hooks/storage/storage.go record types",
    assumptions=["ids, filters, topics and other strings are valid UTF-8 (encoding/json replaces invalid bytes)",
                 "values stay below every engine's value/transaction size limit (badger: about 9 MB per write)",
                 "int64 fields (created, sent, counters) are non-negative",
                 "len(reasonCodes) = len(filters) in OnSubscribed, as the server guarantees",
                 "redis behaves like miniredis for HSET/HDEL/HGETALL/HGET"],
)
