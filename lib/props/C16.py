PROP = dict(
    title="Will messages are published exactly when the protocol requires",
    design_ref="DESIGN.md section 8, C16",
    technique="Coq: component model of sendLWT / sendDelayedLWT / processDisconnect / processConnect / the attach "
              "cancellation (Session/Lifecycle.v); specification monitor mon16 written from the property text "
              "(Session/LifeSpec.v: published once on abnormal end or any DISCONNECT reason but 0x00, never after a normal "
              "DISCONNECT, at min(delay, session end), cancelled by a resuming connection, content kept, retained if "
              "requested); known findings as narrow executable predicates (Session/LifeKF.v) with kernel-checked witness "
              "histories; interleaving model of the old handler's teardown against the new attach (Conc/Takeover.v) "
              "decided for all schedules and parameters by exhaustive exploration.  Tie to the code: differential "
              "execution of will histories (8 kinds of connection end x delays x expiry x reconnect timing, virtual-time "
              "ticks at -1/0/+1 of the deadlines) with an observer subscribed to the will topics, and forced schedules.",
    level_text="The faithful model violates the property in five ways (C16_refuted_takeover_delayed, "
               "C16_refuted_delay_uncapped, C16_refuted_delay_fixed_at_connect, C16_refuted_clean_reconnect, C16_refuted_delayed_retain: witnesses that replay "
               "on the real broker).  For every history of operations: C16_content (every will publication carries topic, "
               "payload, QoS and retain flag registered by that connection's CONNECT) and C16_publication_sources (a will is "
               "published only by its own handler ending with an error while armed, or by the delayed-will tick from the "
               "table).  For every interleaving (window model): C16_once_schedules (never twice, exactly "
               "once when the old handler is through), C16_cancel_schedules_refuted + C16_cancel_modulo_findings "
               "(cancellation holds exactly when the delayed will is registered before the new connection's "
               "willDelayed.Delete).  For every decodable history of the sequential model: C16_modulo_findings_partial - every "
               "violation mon16 reports with a safety tag (published twice, after a normal DISCONNECT, although cancelled by "
               "a resuming connection, before min(delay, session end), while alive / without a will, altered content, "
               "dropped by a clean start) is one of the known findings (proved through a coupling invariant between the "
               "monitor's statuses and the model state, Session/LifeProofs16M.v); C16_never_unexpected_after_normal_or_altered "
               "- three of these clauses have no finding at all.  NOT proved for all histories (partial; the full statement "
               "is C16_modulo_findings_statement): the liveness tags V16_missing / V16_missing_takeover / V16_late (a will "
               "that is due IS published) and V16_retain; they are decided on every run (monitor on the real broker's "
               "observations + exact model correspondence).",
    level_note="Trusted: Coq kernel, extraction, OCaml driver, Go broker harness; will publications are recognised at an "
               "observer connection (QoS 2, Retain As Published) by a payload unique to the connection.  Nondeterminism of the broker allowed by the comparison: sendDelayedLWT ranges over a Go map, so the order "
               "in which the entries due in one tick are published differs from run to run (and with it which of two retained "
               "wills on one topic stays retained); the replay rearranges the model's table into the observed order before a "
               "tick (a permutation, C16_tick_order_is_a_permutation; the invariant and the all-histories theorem do not depend "
               "on the table order, C16_invariant_ignores_table_order / C16_modulo_findings_partial_from).  Modelled not "
               "verified: ACL / topic validation of the will (C17), the message expiry stamped on delayed wills (C25), "
               "user properties.",
    engines=[dict(hx="life", args=["C16"], model="life16"),
             dict(hx="takeover_sched", args=["C16"], model="takeover_sched")],
    theorems=["C16_refuted_takeover_delayed", "C16_refuted_delay_uncapped", "C16_refuted_delay_fixed_at_connect",
              "C16_refuted_clean_reconnect",
              "C16_refuted_delayed_retain", "C16_modulo_findings_partial",
              "C16_never_unexpected_after_normal_or_altered", "C16_tick_order_is_a_permutation",
              "C16_invariant_ignores_table_order", "C16_modulo_findings_partial_from", "C16_content", "C16_publication_sources", "C16_once_schedules",
              "C16_cancel_schedules_refuted", "C16_cancel_modulo_findings"],
    model_files="coq/Session/Lifecycle.v coq/Conc/Takeover.v",
    rule="scenario product: 10 will configurations (delay 0/3/6/8, retain, QoS 0-2, expiry absent/0/4/6/20, MQTT 3/4/5) x 9 "
         "endings (normal, 0x04, network drop, second CONNECT, takeover clean 0/1, DISCONNECT 0x80, DISCONNECT raising a "
         "zero expiry, DISCONNECT 0x04 raising a non-zero expiry) x 5 follow-ups (ticks only, resume before due, clean reconnect before due, resume after due, "
         "session expiry before the will tick) with will/clients ticks at due-1/due/due+1 and at session end; 250 "
         "(thorough 6000) random histories; forced schedules of teardown against attach (both orders, with and without "
         "delay, clean start).  non-trivial = more than two steps or a forced schedule",
    modelled="server.go sendLWT, sendDelayedLWT, processDisconnect, processConnect, attachClient (willDelayed.Delete, "
             "handler tail); clients.go ParseConnect (will delay capped by the CONNECT expiry)",
    assumptions=["the observer is subscribed to every will topic", "will payloads identify the connection",
                 "allow-all ACL, valid will topics"],
)
