PROP = dict(
    title="Every valid encoding a client may send is decoded as the sender meant",
    design_ref="DESIGN.md section 8, C42",
    technique="An independent reference codec written from the OASIS texts (coq/Codec/SpecCodec.v: packet type, strict "
              "decoder, value rules, the relation spec_encodings = every permitted omission x every property order that "
              "keeps repeatable properties in sequence). Coq proof that the model of the mochi decoder (fixed header, "
              "remaining length, per-type body decoder, Properties.Decode) maps every such encoding of every valid packet "
              "to the packet the sender meant and consumes nothing beyond it. The model is tied to the Go decoder by "
              "differential execution; the verdict on each real observation is computed from the reference decoder.",
    level_text="C42_all: for all protocol versions, all valid packets (all 15 types, so in particular every client-to-server "
               "packet), all permitted encodings (remaining length 0/1 for DISCONNECT and AUTH, 2/3 for acknowledgements, "
               "properties in any order) followed by arbitrary bytes: decoded = expected fields, rest unread. "
               "C42_any_order: the Properties struct is independent of the property order. C42_disconnect_will: "
               "e0 01 04 is decoded with reason code 0x04.",
    level_note="Trusted: Coq kernel, extraction, OCaml driver, Go harness; the reading of the OASIS texts that SpecCodec.v "
               "encodes (AUTH with remaining length 1 is accepted as the property text asks, in analogy with DISCONNECT; "
               "topic-filter syntax and the No-Local-on-shared-subscription rule are not part of the codec spec). "
               "Modelled, not verified: Go slices/bytes.Buffer as lists, utf8.Valid (proved to accept everything "
               "RFC 3629 calls well-formed without NUL).  The broker-level consequence (the will is published after "
               "e0 01 04) belongs to the session properties and is not checked here.",
    engines=[dict(hx="codec_enc")],
    theorems=["C42_all", "C42_client", "C42_any_order", "C42_disconnect_will", "C42_reference_roundtrip",
              "C42_reference_accepts_encodings"],
    model_files="coq/Codec/Wire.v coq/Codec/Props.v coq/Codec/MochiCodec.v coq/Codec/SpecCodec.v coq/Codec/SpecBridge.v",
    rule="a Go reference encoder (independent of mochi's) writes generated client packets in every permitted form and "
         "property order; each stream goes through the real fixed-header/body decoders; the Coq reference decoder decides "
         "whether the stream is a permitted encoding and of which packet, and the decoded fields must equal the expected "
         "ones. Streams: the short forms named in the property under versions 3/4/5 (also followed by a second packet); "
         "for every client packet type under MQTT 5 every sub-list of <= 4 allowed properties (thorough 5) in every "
         "order-preserving permutation and every form; 30k random packets (thorough 600k) of all versions with random "
         "property sets, up to 6 permutations each, incl. a share of server-to-client packets and deliberately "
         "not-permitted encodings (correspondence only). non-trivial = stream accepted by the reference decoder as a "
         "client packet; distinct = distinct case lines. Every valid special code point (U+FFFD, U+FEFF, encoding-length boundaries, noncharacters, U+10FFFF) in every string field of every client packet type.",
    exhaustive=False,
    modelled="packets/fixedheader.go Decode, codec.go DecodeLength and decode*, properties.go Decode, packets.go all "
             "*Decode methods, the type switch of clients.go ReadPacket",
    assumptions=["the encodings the standard permits are those of SpecCodec.v spec_encodings (written from MQTT 5.0 "
                 "sections 2.2.2, 3.x.2 and MQTT 3.1.1)",
                 "the harness replicates ReadFixedHeader/ReadPacket (15-line switch) instead of driving a Client"],
)
