PROP = dict(
    title="Persistent state is restored faithfully after a restart",
    design_ref="DESIGN.md section 8, C20 / C21 / C22",
    technique="Coq proof of refinement: the storage writes of a history define an abstract session state over "
              "structured keys (client id, (client id, filter), (client id, packet id), topic); the store holds the "
              "records under flattened keys; the model of readStore/loadClients/loadSubscriptions/loadInflight/"
              "loadRetained/ToPacket, applied to what the model of the Stored* methods returns, yields under every key "
              "what the abstract state prescribes (generic set/delete/load refinement lemma instantiated for the four "
              "record types, transferred to all four back ends by the C22 simulation).  Tie to the code: generated "
              "client histories over in-memory connections against a real broker with each real storage hook, clean "
              "shutdown, second broker on the same store, VerifReadStore, in-memory snapshots before/after.",
    level_text="Theorems over all sequences of storage writes (hence all histories of hook events, any ids/filters/"
               "topics as byte strings) and all four back ends: C20_restart_modulo_findings / "
               "C20_restart_history_modulo_findings (sessions with all persisted settings, subscriptions with options, "
               "in-flight and retained messages with content, properties, expiry deadline and wire expiry, per key), "
               "C20_refuted (one witness per finding).  Each run checks on the real broker: (spec) state after restart "
               "= state at shutdown; (model) state after restart = restart model on the model store, field by field; "
               "(memory) state at shutdown = abstract state of the recorded hook events.",
    level_note="Trusted: Coq kernel, extraction, OCaml driver, Go harness (in-memory connections, recording hook), "
               "miniredis for redis.  Modelled not verified: storage engines, encoding/json (identity on the record "
               "types, validated by C22 on every run), the rest of the broker (only its storage hook calls and its "
               "in-memory state at shutdown enter; compared on every run).  Not claimed: the remaining session-expiry "
               "time (the clock restarts at restart), delayed wills pending at shutdown (kept in memory only), the DUP "
               "flag of stored records, $SYS topics (regenerated), the remote address of a session.",
    engines=[dict(hx="restart", timeout=1500)],
    theorems=["C20_refuted", "C20_restart_modulo_findings", "C20_restart_history_modulo_findings"],
    model_files="coq/Storage/StoreHooks.v coq/Storage/Restart.v coq/Storage/RestartEngine.v",
    rule="18 directed histories (several records per type with alternating fully populated and bare records: sessions, subscriptions with options, in-flight and retained messages; SUBSCRIBE with invalid and ACL-refused filters for MQTT 3.1 / 3.1.1 / 5 sessions, write faults at the broker answer to PUBREC / PUBREL / QoS 2 PUBLISH, Receive Maximum 1-2 with unacknowledged QoS 1/2 bursts connected and offline, Clean Start 1 over a live / offline persistent session with unacknowledged QoS 1 and 2 outbound messages, colliding subscription keys with/without unsubscribe, take-over of a session-expiry-0 "
         "connection, UNSUBSCRIBE with a packet id in use, outbound QoS 2 after PUBREC, time-expired session then new "
         "session, session expiry changed by DISCONNECT / delayed will, retained set-replace-clear-expire) on all four "
         "back ends + random histories of 6..35 client operations (connect v3/v4/v5 with clean/expiry/will variants, "
         "reconnect, take-over, subscribe with options, unsubscribe, publish QoS 0-2 retained/with properties/with a topic alias, QoS "
         "acknowledgements, clean disconnect with expiry override, connection drop, housekeeping ticks) over ids/filters/"
         "topics with ':' '_' '/' unicode: quick 40 histories on bolt+redis (every 8th on all four), thorough 400 on all "
         "four.  two-life histories (a first broker process ended by shutdown or killed, store-loading step, a second process, final restart): 4 directed (ending session with subscription and unacknowledged message killed, same id back with a persistent session / with Clean Start 1 and an expiry interval; persistent session killed, expired in the next process, new session; persistent session killed and resumed) on all four back ends + random ones (quick 6, thorough 60).  non-trivial = more than 3 storage writes; distinct = distinct case lines",
    exhaustive=False,
    modelled="server.go readStore, loadClients, loadSubscriptions, loadInflight, loadRetained, restoreExpiry; "
             "hooks/storage/storage.go Message.ToPacket; the four storage hooks (see C22)",
    assumptions=["packet identifiers are 16 bit (pids_ok)", "valid UTF-8 strings", "values below the engines' size limits",
                 "the server's MaximumMessageExpiryInterval is the same before and after the restart",
                 "histories in which the take-over race C14-1 removes a live client from the Clients map are skipped by the harness (reported in a comment line)"],
)
