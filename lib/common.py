"""Shared plumbing for ./check: builds (Coq, extraction, OCaml driver, Go harness), running an
engine through the extracted model, verdict aggregation, evidence and replay files.
No property logic lives here: verdicts are computed by the extracted Coq engines."""
import fcntl
import glob
import hashlib
import json
import os
import re
import subprocess
import sys
import time

VERIF = os.path.dirname(os.path.dirname(os.path.abspath(__file__)))
COQ = os.path.join(VERIF, "coq")
OCAML = os.path.join(VERIF, "ocaml")
HARNESS = os.path.join(VERIF, "harness")
BUILD = os.path.join(VERIF, ".build")
RUN = os.path.join(VERIF, ".run")
REPO = "/repo"

GOENV = dict(os.environ, GOFLAGS="-mod=mod", GOPROXY="off", GOSUMDB="off", GOTOOLCHAIN="local",
             CGO_ENABLED=os.environ.get("CGO_ENABLED", "0"))

FORBIDDEN = re.compile(r"\b(Admitted|admit|Axiom|Axioms|Parameter|Parameters|Conjecture|Admit Obligations)\b"
                       r"|Unset Guard|bypass_check|type-in-type|impredicative-set|Unset Universe Checking"
                       r"|Unset Positivity")


class Lock:
    def __init__(self, name):
        os.makedirs(BUILD, exist_ok=True)
        self.path = os.path.join(BUILD, name + ".lock")

    def __enter__(self):
        self.f = open(self.path, "w")
        fcntl.flock(self.f, fcntl.LOCK_EX)
        return self

    def __exit__(self, *a):
        fcntl.flock(self.f, fcntl.LOCK_UN)
        self.f.close()


def sh(cmd, cwd=None, env=None, timeout=None, input=None):
    p = subprocess.run(cmd, cwd=cwd, env=env, timeout=timeout, input=input,
                       stdout=subprocess.PIPE, stderr=subprocess.STDOUT, text=True, shell=isinstance(cmd, str))
    return p.returncode, p.stdout


def strip_coq_comments(src):
    out, depth, i = [], 0, 0
    while i < len(src):
        if src.startswith("(*", i):
            depth += 1
            i += 2
        elif src.startswith("*)", i) and depth > 0:
            depth -= 1
            i += 2
        else:
            if depth == 0:
                out.append(src[i])
            i += 1
    return "".join(out)


def scan_forbidden():
    """grep the whole development (comments stripped) for anything that would declare an axiom or
    switch off a kernel check."""
    hits = []
    for path in sorted(glob.glob(os.path.join(COQ, "**", "*.v"), recursive=True)):
        src = strip_coq_comments(open(path).read())
        for n, line in enumerate(src.split("\n"), 1):
            if FORBIDDEN.search(line):
                hits.append("%s:%d: %s" % (os.path.relpath(path, VERIF), n, line.strip()))
    cp = open(os.path.join(COQ, "_CoqProject")).read()
    if re.search(r"type-in-type|impredicative-set|-vos|-vok", cp):
        hits.append("_CoqProject: forbidden flag")
    return hits


def build_coq(timeout=2400):
    """Full .vo build through coq_makefile (never -vos).  Returns (ok, log)."""
    with Lock("coq"):
        mk = os.path.join(COQ, "Makefile")
        cp = os.path.join(COQ, "_CoqProject")
        if not os.path.exists(mk) or os.path.getmtime(mk) < os.path.getmtime(cp):
            rc, out = sh(["coq_makefile", "-f", "_CoqProject", "-o", "Makefile"], cwd=COQ)
            if rc != 0:
                return False, out
        rc, out = sh(["timeout", str(timeout), "make", "-j16"], cwd=COQ)
        return rc == 0, out


def build_model(timeout=900):
    """Extraction (ExtrOcamlBasic only) + OCaml driver.  Rebuilt when any .vo is newer."""
    with Lock("model"):
        gen = os.path.join(OCAML, "gen")
        bld = os.path.join(OCAML, "build")
        os.makedirs(gen, exist_ok=True)
        os.makedirs(bld, exist_ok=True)
        exe = os.path.join(bld, "modeld")
        newest = max([os.path.getmtime(p) for p in glob.glob(os.path.join(COQ, "**", "*.vo"), recursive=True)]
                     + [os.path.getmtime(os.path.join(OCAML, "modeld.ml")),
                        os.path.getmtime(os.path.join(COQ, "Extract", "Extract.v"))])
        if os.path.exists(exe) and os.path.getmtime(exe) >= newest:
            return True, "model up to date"
        rc, out = sh(["timeout", str(timeout), "coqc", "-Q", COQ, "MV", "-w", "-extraction-default-directory",
                      os.path.join(COQ, "Extract", "Extract.v")], cwd=gen)
        if rc != 0:
            return False, out
        for f in ("model.ml", "model.mli"):
            sh(["cp", os.path.join(gen, f), bld])
        sh(["cp", os.path.join(OCAML, "modeld.ml"), bld])
        rc, out2 = sh(["ocamlfind", "ocamlopt", "-O3", "-w", "-a", "model.mli", "model.ml", "modeld.ml",
                       "-o", "modeld.new"], cwd=bld)
        if rc != 0:
            return False, out + out2
        os.replace(os.path.join(bld, "modeld.new"), exe)
        return True, out + out2


def build_harness(race=False, timeout=1500):
    """go build -tags verif of the harness against /repo's current working tree."""
    with Lock("harness"):
        sh(["cp", os.path.join(REPO, "go.sum"), os.path.join(HARNESS, "go.sum")])
        exe = os.path.join(BUILD, "hx-race" if race else "hx")
        cmd = ["timeout", str(timeout), "go", "build", "-tags", "verif"]
        env = dict(GOENV)
        if race:
            cmd.append("-race")
            env["CGO_ENABLED"] = "1"
        cmd += ["-o", exe, "./cmd/hx"]
        rc, out = sh(cmd, cwd=HARNESS, env=env)
        return rc == 0, out, exe


def property_obligations(pid):
    """Recompile Properties/<pid>.v alone (it only contains [exact lemma] proofs and Print
    Assumptions) and parse what the kernel reports.  Returns dict."""
    path = os.path.join(COQ, "Properties", pid + ".v")
    src = strip_coq_comments(open(path).read())
    theorems = re.findall(r"^\s*Theorem\s+(\w+)", src, re.M)
    printed = re.findall(r"^\s*Print Assumptions\s+(\w+)\s*\.", src, re.M)
    rc, out = sh(["timeout", "600", "coqc", "-Q", COQ, "MV", path], cwd=COQ)
    res = {"theorems": theorems, "compiled": rc == 0, "log": out, "axioms": {}, "closed": []}
    if rc != 0:
        return res
    # split the output into one block per Print Assumptions, in order
    blocks = re.split(r"(?=Closed under the global context|Axioms:)", out)
    blocks = [b for b in blocks if b.startswith("Closed under") or b.startswith("Axioms:")]
    for name, b in zip(printed, blocks):
        if b.startswith("Closed under"):
            res["closed"].append(name)
        else:
            res["axioms"][name] = re.findall(r"^(\S+)\s*:", b[len("Axioms:"):], re.M)
    res["unprinted"] = [t for t in theorems if t not in printed]
    return res


def run_engine(engine, hx_args, seed, tier, workdir, hx_exe=None, model_engine=None, timeout=3000, env=None):
    """Run hx <engine> and pipe its cases through modeld.  Returns (cases_path, verdicts_path, rc, log)."""
    os.makedirs(workdir, exist_ok=True)
    cases = os.path.join(workdir, engine + ".cases")
    verd = os.path.join(workdir, engine + ".verdicts")
    hx = hx_exe or os.path.join(BUILD, "hx")
    with open(cases, "w") as f:
        p = subprocess.run(["timeout", str(timeout), hx, engine, "-seed", str(seed), "-tier", tier] + list(hx_args),
                           stdout=f, stderr=subprocess.PIPE, text=True, env=env or GOENV, cwd=workdir)
    if p.returncode != 0:
        return cases, verd, p.returncode, "hx failed: " + p.stderr[-4000:]
    with open(cases) as fi, open(verd, "w") as fo:
        q = subprocess.run(["timeout", str(timeout), os.path.join(OCAML, "build", "modeld"), model_engine or engine],
                           stdin=fi, stdout=fo, stderr=subprocess.PIPE, text=True)
    if q.returncode != 0:
        return cases, verd, q.returncode, "modeld failed: " + q.stderr[-4000:]
    return cases, verd, 0, p.stderr[-2000:]


def parse_verdict(line):
    """'(code xTAG nontrivial info...)' -> (code, tag, nontrivial, rest)"""
    m = re.match(r"\((\d+) x([0-9a-f]*) (\d+)(.*)\)\s*$", line)
    if not m:
        return 9, "unparsed", 0, line.strip()
    return int(m.group(1)), bytes.fromhex(m.group(2)).decode("latin1"), int(m.group(3)), m.group(4).strip()


def hexdecode_tokens(s):
    """Make a case line a little more readable for evidence samples (x68656c6c6f -> x"hello" when printable)."""
    def rep(m):
        try:
            b = bytes.fromhex(m.group(1))
        except ValueError:
            return m.group(0)
        if b and all(32 <= c < 127 and c not in (34, 92) for c in b):
            return '"%s"' % b.decode("ascii")
        return m.group(0)
    return re.sub(r"\bx([0-9a-f]+)\b", rep, s)


class Aggregate:
    def __init__(self):
        self.n = 0
        self.by = {}
        self.nontrivial = set()
        self.fail = []      # (index, case, verdict) code 1
        self.mismatch = []  # code 2
        self.known = {}     # kf name -> first (index, case, verdict)
        self.bad = []       # code 9
        self.samples = []
        self.first_by_tag = {}

    def add_files(self, engine, cases_path, verd_path, max_keep=20):
        with open(cases_path) as fc, open(verd_path) as fv:
            idx = 0
            for cl in fc:
                if not cl.strip() or cl.startswith("#"):
                    continue
                vl = fv.readline()
                code, tag, nt, rest = parse_verdict(vl)
                self.n += 1
                key = "%s/%s/%d" % (engine, tag, code)
                self.by[key] = self.by.get(key, 0) + 1
                if nt:
                    self.nontrivial.add(hashlib.blake2b(cl.encode(), digest_size=8).digest())
                if key not in self.first_by_tag:
                    self.first_by_tag[key] = cl.strip()[:600]
                rec = (engine, idx, cl.strip(), vl.strip())
                if code == 1 and len(self.fail) < max_keep:
                    self.fail.append(rec)
                elif code == 2 and len(self.mismatch) < max_keep:
                    self.mismatch.append(rec)
                elif code == 3:
                    m = re.match(r"x([0-9a-f]*)", rest)
                    name = bytes.fromhex(m.group(1)).decode("latin1") if m else "?"
                    self.known.setdefault(name, rec)
                elif code == 9 and len(self.bad) < max_keep:
                    self.bad.append(rec)
                idx += 1

    def sample_list(self, k=8):
        out = []
        for key in sorted(self.first_by_tag)[:k]:
            out.append({"class": key, "case": hexdecode_tokens(self.first_by_tag[key])})
        return out


def write_json(path, obj):
    os.makedirs(os.path.dirname(path), exist_ok=True)
    tmp = path + ".tmp%d" % os.getpid()
    with open(tmp, "w") as f:
        json.dump(obj, f, indent=1, sort_keys=True)
        f.write("\n")
    os.replace(tmp, path)


def load_known_findings():
    p = os.path.join(VERIF, "KNOWN_FINDINGS.json")
    if not os.path.exists(p):
        return {"findings": [], "fixed": []}
    return json.load(open(p))
