"""Helper for the two structural concurrency properties (C32, C33): runs the Go-AST translator
(harness/cmd/astx) on the repository under check, refreshes the generated Coq data files and has
the Coq kernel evaluate the proved checker on them.

Design (why a failing discipline check stays local to its property):
  * the *table* (coq/Gen/LockGraph.v, coq/Gen/AccessTable.v) is plain data; it is part of the shared
    build and always compiles;
  * the *check lemma* (`checker table = true` by vm_compute + the instantiated theorem + Print
    Assumptions) lives in coq/Gen/*Check.v, whose first line starts with `(* WIP` so that the shared
    `make` ignores it; it is compiled here, by coqc, in a private directory
    (.build[/alt-*]/gen/<pid>/ with logical prefix MVG), together with a private copy of the table.
    If it does not compile, only this property's obligation fails.
  * with VERIF_REPO pointing at a scratch worktree nothing under /verif/coq is written at all."""
import glob
import json
import os
import re

import common as C

ASTX_LOCK = "astx"


def build_astx():
    with C.Lock(ASTX_LOCK):
        os.makedirs(C.SHARED_BUILD, exist_ok=True)
        exe = os.path.join(C.SHARED_BUILD, "astx")
        rc, out = C.sh(["timeout", "600", "go", "build", "-tags", "verif", "-o", exe, "./cmd/astx"],
                       cwd=C.HARNESS, env=C.GOENV)
        return rc == 0, out, exe


def write_if_changed(path, content):
    if os.path.exists(path) and open(path).read() == content:
        return False
    os.makedirs(os.path.dirname(path), exist_ok=True)
    tmp = path + ".tmp%d" % os.getpid()
    with open(tmp, "w") as f:
        f.write(content)
    os.replace(tmp, path)
    return True


def translate(pid, sub, table_name, check_name, check_body, diag_body, dep_vos,
              ok_marker="Closed under the global context", always_diag=False):
    """Runs `astx <sub>`, writes <table_name>.v / <check_name>.v, compiles them privately.
    check_body / diag_body are Coq texts in which `@TABLE@` stands for the Require line of the table.
    dep_vos: the .vo files (relative to coq/) the check file depends on.
    Returns (ok, side_json, check_output, diag_output, notes)."""
    notes = []
    ok, log, exe = build_astx()
    if not ok:
        return False, None, "", "", ["astx does not build: " + log[-1500:]]
    gdir = os.path.join(C.BUILD, "gen", pid)
    os.makedirs(gdir, exist_ok=True)
    with C.Lock("gen-" + pid, shared=False):
        tv = os.path.join(gdir, table_name + ".v")
        js = os.path.join(gdir, table_name + ".json")
        tmpv = tv + ".new"
        env = dict(C.GOENV, VERIF_REPO=C.REPO)
        rc, out = C.sh(["timeout", "600", exe, sub, "-coq", tmpv, "-json", js], env=env)
        if rc != 0:
            return False, None, "", "", ["astx %s failed on %s: %s" % (sub, C.REPO, out[-1500:])]
        table_text = open(tmpv).read()
        os.remove(tmpv)
        side = json.load(open(js))
        private_table = table_text.replace("(* GENERATED", "(* private copy used for the kernel check; GENERATED", 1)
        write_if_changed(tv, private_table)
        req_private = "From MVG Require Import %s." % table_name
        write_if_changed(os.path.join(gdir, check_name + ".v"), check_body.replace("@TABLE@", req_private))
        write_if_changed(os.path.join(gdir, check_name + "Diag.v"), diag_body.replace("@TABLE@", req_private))
        if not C.ALT:
            # the committed, current output: table in the shared build, check file outside it (WIP line)
            req_shared = "From MV Require Import Gen.%s." % table_name
            write_if_changed(os.path.join(C.COQ, "Gen", table_name + ".v"), table_text)
            write_if_changed(os.path.join(C.COQ, "Gen", check_name + ".v"),
                             "(* WIP generated: not part of the shared build.  Compiled on every run of ./check %s by\n"
                             "   lib/conc_gen.py (private copy under .build/gen/%s); by hand:\n"
                             "   make -C /verif/coq && coqc -Q /verif/coq MV /verif/coq/Gen/%s.v *)\n" % (pid, pid, check_name)
                             + check_body.replace("@TABLE@", req_shared))
        cok, clog = C.build_coq()
        if not cok:
            return False, side, "", "", ["coq build failed: " + clog[-1500:]]
        base = ["timeout", "900", "coqc", "-Q", C.COQ, "MV", "-Q", gdir, "MVG"]
        cv = os.path.join(gdir, check_name + ".v")
        outf = os.path.join(gdir, check_name + ".out")
        deps = [tv, cv] + [os.path.join(C.COQ, d) for d in dep_vos]
        newest = max(os.path.getmtime(d) for d in deps)
        # like make: nothing is recompiled while the table, the check file and the Conc/*.vo it depends on
        # are unchanged (the recorded coqc output is reused)
        doutf = os.path.join(gdir, check_name + "Diag.out")
        cached = os.path.exists(outf) and os.path.getmtime(outf) >= newest and os.path.exists(cv + "o")
        if cached:
            cout = open(outf).read()
            rc = 0 if cout.startswith("rc=0\n") else 1
        else:
            rc, out = C.sh(base + [tv], cwd=gdir)
            if rc != 0:
                return False, side, out, "", ["generated table does not compile: " + out[-1500:]]
            rc, cout = C.sh(base + [cv], cwd=gdir)
            cout = "rc=%d\n" % rc + cout
            with open(outf, "w") as f:
                f.write(cout)
        ok = rc == 0 and ok_marker in cout
        dout = ""
        if not ok or always_diag:
            if cached and os.path.exists(doutf) and os.path.getmtime(doutf) >= newest:
                dout = open(doutf).read()
            else:
                _, dout = C.sh(base + [os.path.join(gdir, check_name + "Diag.v")], cwd=gdir)
                with open(doutf, "w") as f:
                    f.write(dout)
        return ok, side, cout, dout, notes


def coq_list_of_tuples(text, arity):
    """Parses `= [(a, b, c); ...]` / `= (a, b, c) :: ... :: nil` printed by Eval into int tuples."""
    m = re.search(r"=\s*(.*?)\n\s*:\s", text, re.S)
    if not m:
        return []
    nums = [int(x) for x in re.findall(r"\d+", re.sub(r"%\w+", "", m.group(1)))]
    return [tuple(nums[i:i + arity]) for i in range(0, len(nums) - arity + 1, arity)]
