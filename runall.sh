#!/bin/bash
# runs every claimed check once (quick by default) and prints one summary line per property
tier=${1:-quick}
cd /verif
for p in $(./check --list); do
  s=$(date +%s)
  out=$(./check $p --tier $tier 2>&1)
  rc=$?
  e=$(( $(date +%s) - s ))
  kf=$(echo "$out" | grep -c "^KNOWN-FINDING")
  v=$(echo "$out" | grep -c "^VIOLATION")
  echo "$p rc=$rc ${e}s known=$kf violations=$v $(echo "$out" | grep -E 'tier=' | sed 's/.*obligations/obligations/')"
done
